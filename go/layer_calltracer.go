package main

// M4 layer: well-nested callback streams generated from a tree grammar (calls, several Aspects per join point, EVM
// calls issued from inside an Aspect) are fed to the real callTracer / flatCallTracer obtained from
// tracers.DefaultDirectory; GetResult() is parsed and re-printed canonically and compared with
// Artela/Model/CallTracer.lean (E lines, Q ctnested / Q ctflat) and with the tree itself (S ctrender, S ctflatinv).

import (
	"encoding/json"
	"errors"
	"fmt"
	"math/big"
	"strings"

	"github.com/artela-network/artela-evm/tracers"
	_ "github.com/artela-network/artela-evm/tracers/native"
	"github.com/artela-network/artela-evm/vm"
	atypes "github.com/artela-network/aspect-core/types"
	"github.com/ethereum/go-ethereum/common"
)

type tAspect struct {
	jp               int
	aspect, from, to common.Address
	input            []byte
	gas, gasLeft     uint64
	value            *big.Int
	calls            []*tFrame
	ret              []byte
	err              error
}

type tFrame struct {
	typ       vm.OpCode
	from, to  common.Address
	input     []byte
	gas       uint64
	value     *big.Int
	pre, post []*tAspect
	calls     []*tFrame
	output    []byte
	gasUsed   uint64
	err       error
}

var tErrs = []error{nil, nil, nil, vm.ErrExecutionReverted, vm.ErrOutOfGas, errors.New("invalid opcode: INVALID"), errors.New("aspect refused")}

func genTFrame(r *Rng, depth int, top bool) *tFrame {
	f := &tFrame{from: common.BytesToAddress([]byte{0xa0, byte(r.Intn(4))}), to: common.BytesToAddress([]byte{0xb0, byte(r.Intn(6))}),
		input: r.Bytes([]int{0, 4, 36}[r.Intn(3)]), gas: uint64(1000 + r.Intn(100000))}
	f.typ = []vm.OpCode{vm.CALL, vm.CALL, vm.STATICCALL, vm.DELEGATECALL, vm.CALLCODE, vm.CREATE, vm.CREATE2}[r.Intn(7)]
	if top {
		f.typ = []vm.OpCode{vm.CALL, vm.CALL, vm.CREATE}[r.Intn(3)]
	}
	if f.typ != vm.STATICCALL {
		f.value = big.NewInt(int64(r.Intn(3)))
	}
	if r.Chance(15) {
		f.to = common.BytesToAddress([]byte{byte(1 + r.Intn(9))}) // a precompile address
	}
	if !top && r.Chance(6) {
		// SELFDESTRUCT is announced to the tracers as a frame of its own: from the account to the beneficiary, the balance as value,
		// no gas, no input, entered and left at once
		f.typ, f.input, f.gas, f.value = vm.SELFDESTRUCT, []byte{}, 0, big.NewInt(int64(r.Intn(1000)))
		f.output = []byte{}
		return f
	}
	f.err = tErrs[r.Intn(len(tErrs))]
	f.output = r.Bytes([]int{0, 0, 4, 36, 68}[r.Intn(5)])
	f.gasUsed = uint64(r.Intn(int(f.gas)))
	nA := func() int {
		if depth > 3 {
			return 0
		}
		return []int{0, 0, 0, 1, 1, 2, 3}[r.Intn(7)]
	}
	mkA := func(jp int) *tAspect {
		a := &tAspect{jp: jp, aspect: common.BytesToAddress([]byte{0xaa, byte(r.Intn(5))}), from: f.from, to: f.to, input: f.input,
			gas: uint64(100 + r.Intn(5000)), value: f.value}
		a.gasLeft = uint64(r.Intn(int(a.gas)))
		a.err = tErrs[r.Intn(len(tErrs))]
		a.ret = r.Bytes([]int{0, 0, 3, 40}[r.Intn(4)])
		if depth < 3 {
			for i := []int{0, 0, 1, 2}[r.Intn(4)]; i > 0; i-- {
				a.calls = append(a.calls, genTFrame(r, depth+2, false))
			}
		}
		return a
	}
	preJP, postJP := 4, 8
	if top && r.Bool() {
		preJP, postJP = 2, 16
	}
	for i := nA(); i > 0; i-- {
		f.pre = append(f.pre, mkA(preJP))
	}
	if depth < 4 {
		for i := []int{0, 0, 1, 1, 2, 3, 4}[r.Intn(7)]; i > 0; i-- {
			f.calls = append(f.calls, genTFrame(r, depth+1, false))
		}
	}
	for i := nA(); i > 0; i-- {
		f.post = append(f.post, mkA(postJP))
	}
	return f
}

type tSink struct {
	tr   tracers.Tracer
	al   atypes.AspectLogger
	em   *Emitter
	env  *vm.EVM
	tags string
}

func terr(e error) string {
	if e == nil {
		return "-"
	}
	return strings.ReplaceAll(e.Error(), " ", "_")
}

func (s *tSink) aspect(a *tAspect) {
	n := uint64(1)
	s.em.Op("-", fmt.Sprintf("E aenter %x %s %s %s %s %s %s", a.jp, hexAddr(a.from), hexAddr(a.to), hexAddr(a.aspect), hexBytes(a.input), hexU64(a.gas), optBig(a.value)), "ok")
	s.al.CaptureAspectEnter(atypes.JoinPointRunType(a.jp), a.from, a.to, a.aspect, a.input, a.gas, a.value, &atypes.BlockInput{Number: &n})
	for _, c := range a.calls {
		s.frame(c, false)
	}
	s.em.Op("-", fmt.Sprintf("E aexit %x %s %s %s", a.jp, hexU64(a.gasLeft), hexBytes(a.ret), terr(a.err)), "ok")
	s.al.CaptureAspectExit(atypes.JoinPointRunType(a.jp), &atypes.AspectExecutionResult{Gas: a.gasLeft, Err: a.err, Ret: a.ret})
}

func (s *tSink) frame(f *tFrame, top bool) {
	if top {
		s.em.Op("-", fmt.Sprintf("E start %s %s %s %s %s %s", hexAddr(f.from), hexAddr(f.to), b01(f.typ == vm.CREATE), hexBytes(f.input), hexU64(f.gas), optBig(f.value)), "ok")
		s.tr.CaptureStart(s.env, f.from, f.to, f.typ == vm.CREATE, f.input, f.gas, f.value)
	} else {
		s.em.Op("-", fmt.Sprintf("E enter %s %s %s %s %s %s", f.typ.String(), hexAddr(f.from), hexAddr(f.to), hexBytes(f.input), hexU64(f.gas), optBig(f.value)), "ok")
		s.tr.CaptureEnter(f.typ, f.from, f.to, f.input, f.gas, f.value)
	}
	for _, a := range f.pre {
		s.aspect(a)
	}
	for _, c := range f.calls {
		s.frame(c, false)
	}
	for _, a := range f.post {
		s.aspect(a)
	}
	if top {
		s.em.Op("-", fmt.Sprintf("E end %s %s %s", hexBytes(f.output), hexU64(f.gasUsed), terr(f.err)), "ok")
		s.tr.CaptureEnd(f.output, f.gasUsed, f.err)
	} else {
		s.em.Op("-", fmt.Sprintf("E exit %s %s %s", hexBytes(f.output), hexU64(f.gasUsed), terr(f.err)), "ok")
		s.tr.CaptureExit(f.output, f.gasUsed, f.err)
	}
}

// ---- canonical forms of the JSON results

func jHexNat(v interface{}) string {
	s, ok := v.(string)
	if !ok {
		return "-"
	}
	b, ok := new(big.Int).SetString(strings.TrimPrefix(s, "0x"), 16)
	if !ok {
		return "?" + s
	}
	return b.Text(16)
}
func jBytes(v interface{}) string {
	s, ok := v.(string)
	if !ok {
		return "x"
	}
	return "x" + strings.TrimPrefix(s, "0x")
}
func jErr(v interface{}) string {
	s, ok := v.(string)
	if !ok || s == "" {
		return "-"
	}
	return strings.ReplaceAll(s, " ", "_")
}

func canonNested(m map[string]interface{}) string {
	var js, cs []string
	if l, ok := m["joinPoints"].([]interface{}); ok {
		for _, x := range l {
			a := x.(map[string]interface{})
			var ac []string
			if cl, ok := a["calls"].([]interface{}); ok {
				for _, c := range cl {
					ac = append(ac, canonNested(c.(map[string]interface{})))
				}
			}
			js = append(js, fmt.Sprintf("A(%v,%s,%s,%s,%s,%s,%s,%s,%s,%s;C%s)", a["type"], jHexNat(a["aspect"]), jHexNat(a["from"]), jHexNat(a["to"]),
				jHexNat(a["gas"]), jHexNat(a["gasUsed"]), jBytes(a["input"]), jHexNat(a["value"]), jBytes(a["output"]), jErr(a["error"]), listStr(ac)))
		}
	}
	if l, ok := m["calls"].([]interface{}); ok {
		for _, c := range l {
			cs = append(cs, canonNested(c.(map[string]interface{})))
		}
	}
	return fmt.Sprintf("F(%v,%s,%s,%s,%s,%s,%s,%s,%s;J%s;C%s)", m["type"], jHexNat(m["from"]), jHexNat(m["to"]), jBytes(m["input"]), jHexNat(m["gas"]),
		jHexNat(m["gasUsed"]), jHexNat(m["value"]), jBytes(m["output"]), jErr(m["error"]), listStr(js), listStr(cs))
}

var jpNames = map[int]string{1: "verifyTx", 2: "preTxExecute", 4: "preContractCall", 8: "postContractCall", 16: "postTxExecute"}

// renderTree is the specification: every frame once under the frame or Aspect that issued it, every Aspect
// execution once with its own gas used, output and error.
func renderTree(f *tFrame, top bool, gasLimit, rest uint64, onlyTop bool) string {
	var js, cs []string
	aspects := append(append([]*tAspect{}, f.pre...), f.post...)
	for _, a := range aspects {
		var ac []string
		if !onlyTop {
			for _, c := range a.calls {
				ac = append(ac, renderTree(c, false, 0, 0, onlyTop))
			}
		}
		out, e := "x", "-"
		if a.err == nil {
			out = hexBytes(a.ret)
		} else {
			e = terr(a.err)
			if len(a.ret) > 0 {
				out = hexBytes(a.ret)
			}
		}
		v := "0"
		if a.value != nil {
			v = a.value.Text(16)
		}
		js = append(js, fmt.Sprintf("A(%s,%s,%s,%s,%s,%s,%s,%s,%s,%s;C%s)", jpNames[a.jp], hexAddr(a.aspect), hexAddr(a.from), hexAddr(a.to), hexU64(a.gas),
			hexU64(a.gas-a.gasLeft), hexBytes(a.input), v, out, e, listStr(ac)))
	}
	if !onlyTop {
		for _, c := range f.calls {
			cs = append(cs, renderTree(c, false, 0, 0, onlyTop))
		}
	}
	typ, gas, used := f.typ.String(), f.gas, f.gasUsed
	if top {
		gas, used = gasLimit, gasLimit-rest
		if f.typ != vm.CREATE {
			typ = "CALL"
		}
	}
	to := hexAddr(f.to)
	out, e := "x", "-"
	if f.err == nil {
		out = hexBytes(f.output)
	} else {
		e = terr(f.err)
		if f.typ == vm.CREATE || f.typ == vm.CREATE2 {
			to = "-"
		}
		if errors.Is(f.err, vm.ErrExecutionReverted) && len(f.output) > 0 {
			out = hexBytes(f.output)
		}
	}
	return fmt.Sprintf("F(%s,%s,%s,%s,%s,%s,%s,%s,%s;J%s;C%s)", typ, hexAddr(f.from), to, hexBytes(f.input), hexU64(gas), hexU64(used), optBig(f.value), out, e,
		listStr(js), listStr(cs))
}

func canonFlat(l []interface{}) (string, string) {
	var out []string
	addrs := map[string]bool{}
	childCount := map[string]int{}
	subs := map[string]int{}
	inv := "ok"
	for _, x := range l {
		m := x.(map[string]interface{})
		act, _ := m["action"].(map[string]interface{})
		res, _ := m["result"].(map[string]interface{})
		ta := ""
		var taList []string
		if t, ok := m["traceAddress"].([]interface{}); ok {
			for _, i := range t {
				taList = append(taList, fmt.Sprint(int(i.(float64))))
			}
		}
		ta = "/" + strings.Join(taList, "/")
		if addrs[ta] {
			inv = "duplicate_trace_address_" + ta
		}
		addrs[ta] = true
		if len(taList) > 0 {
			parent := "/" + strings.Join(taList[:len(taList)-1], "/")
			childCount[parent]++
			if !addrs[parent] {
				inv = "trace_address_" + ta + "_without_parent_entry"
			}
		}
		subs[ta] = int(m["subtraces"].(float64))
		result := "noresult"
		if res != nil {
			o := res["output"]
			if m["type"] == "create" {
				o = res["code"]
			}
			result = jHexNat(res["gasUsed"]) + "/" + jBytes(o)
		}
		if m["type"] == "suicide" {
			out = append(out, fmt.Sprintf("suicide:%s:%s:%s:%s:sub=%d:at=%s", jHexNat(act["address"]), jHexNat(act["refundAddress"]), jHexNat(act["balance"]), jErr(m["error"]), subs[ta], ta))
			continue
		}
		if _, isAspect := act["aspect"]; isAspect {
			out = append(out, fmt.Sprintf("aspect:%v:%s:%s:%s:%s:%s:%s:%s:%s:sub=%d:at=%s", act["callType"], jHexNat(act["aspect"]), jHexNat(act["from"]), jHexNat(act["to"]),
				jHexNat(act["gas"]), jBytes(act["input"]), jHexNat(act["value"]), result, jErr(m["error"]), subs[ta], ta))
			continue
		}
		to, in, ct := jHexNat(act["to"]), act["input"], fmt.Sprint(act["callType"])
		if m["type"] == "create" {
			in, ct = act["init"], "create"
			to = "-"
			if res != nil {
				to = jHexNat(res["address"])
			}
		}
		out = append(out, fmt.Sprintf("%v:%s:%s:%s:%s:%s:%s:%s:%s:sub=%d:at=%s", m["type"], ct, jHexNat(act["from"]), to, jHexNat(act["gas"]), jBytes(in),
			jHexNat(act["value"]), result, jErr(m["error"]), subs[ta], ta))
	}
	for a, n := range subs {
		if childCount[a] != n && inv == "ok" {
			inv = fmt.Sprintf("entry_%s_reports_%d_subtraces_but_has_%d_children", a, n, childCount[a])
		}
	}
	return listStr(out), inv
}

// specFlatOwn is the C19 statement for the flat tracer, computed from the executions themselves and not from the model: every Aspect
// execution that is not under a dropped precompile call appears exactly once, with its own Aspect id, gas, gas used and output.
func specFlatOwn(root *tFrame, incl bool, l []interface{}) string {
	want := map[string]int{}
	var walk func(f *tFrame, underFrame, top bool)
	walk = func(f *tFrame, underFrame, top bool) {
		if !incl && !top && underFrame && (f.typ == vm.CALL || f.typ == vm.STATICCALL) && len(f.to.Bytes()) == 20 && isPrecompileAddr(f.to) {
			return
		}
		for _, a := range append(append([]*tAspect{}, f.pre...), f.post...) {
			res := "noresult"
			if a.err == nil || errors.Is(a.err, vm.ErrExecutionReverted) {
				res = hexU64(a.gas-a.gasLeft) + "/" + hexBytes(a.ret)
			}
			want[fmt.Sprintf("%s:%s:%s:%s", strings.ToLower(jpNames[a.jp]), hexAddr(a.aspect), hexU64(a.gas), res)]++
			for _, c := range a.calls {
				walk(c, false, false)
			}
		}
		for _, c := range f.calls {
			walk(c, true, false)
		}
	}
	walk(root, false, true)
	for _, x := range l {
		m := x.(map[string]interface{})
		act, _ := m["action"].(map[string]interface{})
		if _, isAspect := act["aspect"]; !isAspect {
			continue
		}
		res := "noresult"
		if r, _ := m["result"].(map[string]interface{}); r != nil {
			res = jHexNat(r["gasUsed"]) + "/" + jBytes(r["output"])
		}
		k := fmt.Sprintf("%v:%s:%s:%s", act["callType"], jHexNat(act["aspect"]), jHexNat(act["gas"]), res)
		want[k]--
		if want[k] < 0 {
			return "aspect_entry_without_execution_" + strings.ReplaceAll(k, ":", "_")
		}
	}
	for k, n := range want {
		if n > 0 {
			return "aspect_execution_not_emitted_" + strings.ReplaceAll(k, ":", "_")
		}
	}
	return "ok"
}

func isPrecompileAddr(a common.Address) bool {
	b := a.Bytes()
	for _, x := range b[:19] {
		if x != 0 {
			return false
		}
	}
	return b[19] >= 1 && b[19] <= 9
}

func countFrames(f *tFrame) (int, int) {
	fr, as := 1, len(f.pre)+len(f.post)
	for _, a := range append(append([]*tAspect{}, f.pre...), f.post...) {
		for _, c := range a.calls {
			x, y := countFrames(c)
			fr, as = fr+x, as+y
		}
	}
	for _, c := range f.calls {
		x, y := countFrames(c)
		fr, as = fr+x, as+y
	}
	return fr, as
}

func driveCallTracer(seed uint64, n int, size int, em *Emitter) {
	r := NewRng(seed)
	initHost()
	env := newEnv("Berlin", nil, nil, nil, nil)
	for i := 0; i < n; i++ {
		root := genTFrame(r.Fork(), 0, true)
		gasLimit, rest := root.gas+21000, uint64(r.Intn(1000))
		for _, flat := range []bool{false, true} {
			onlyTop := !flat && r.Chance(20)
			incl := flat && r.Bool()
			parity := flat && r.Chance(40)
			name, cfg := "callTracer", fmt.Sprintf(`{"onlyTopCall":%v}`, onlyTop)
			if flat {
				name, cfg = "flatCallTracer", fmt.Sprintf(`{"includePrecompiles":%v,"convertParityErrors":%v}`, incl, parity)
			}
			em.Reset(fmt.Sprintf("calltracer-%d-%d-%s", seed, i, name))
			em.Op("-", fmt.Sprintf("EC %s %s %s %s", b01(flat), b01(onlyTop), b01(incl), b01(parity)), "ok")
			tr, err := tracers.DefaultDirectory.New(name, &tracers.Context{}, json.RawMessage(cfg))
			if err != nil {
				panic(err)
			}
			al, _ := tr.(atypes.AspectLogger)
			s := &tSink{tr: tr, al: al, em: em, env: env.evm}
			impl, inv, own := "", "ok", "ok"
			func() {
				defer func() {
					if x := recover(); x != nil {
						impl = "panic"
					}
				}()
				em.Op("-", fmt.Sprintf("E txstart %s", hexU64(gasLimit)), "ok")
				tr.CaptureTxStart(gasLimit)
				s.frame(root, true)
				em.Op("-", fmt.Sprintf("E txend %s", hexU64(rest)), "ok")
				tr.CaptureTxEnd(rest)
				raw, err := tr.GetResult()
				if err != nil {
					impl = "err:" + strings.ReplaceAll(err.Error(), " ", "_")
					return
				}
				if flat {
					var l []interface{}
					json.Unmarshal(raw, &l)
					impl, inv = canonFlat(l)
					own = specFlatOwn(root, incl, l)
				} else {
					var m map[string]interface{}
					json.Unmarshal(raw, &m)
					impl = canonNested(m)
				}
			}()
			nf, na := countFrames(root)
			if flat {
				em.Op("C19,C03", "Q ctflat", impl)
				em.Op("C19", "S ctflatinv", inv)
				em.Op("C19", "S ctflatown", own)
			} else {
				em.Op("C19,C03,C18", "Q ctnested", impl)
				v := "ok"
				if want := renderTree(root, true, gasLimit, rest, onlyTop); impl != want {
					v = "differs"
					if impl == "panic" {
						v = "panic"
					}
				}
				em.Op("C19", "S ctrender", v)
			}
			em.Count(fmt.Sprintf("calltracer:%s:frames=%d:aspects=%d", name, min(nf, 10), min(na, 6)))
		}
	}
}
