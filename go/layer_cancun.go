package main

// M6 layer: MCOPY executed inside real bytecode on a Cancun configuration (memory content, MSIZE and gas cost of the
// step observed), TLOAD/TSTORE frame programs with every call kind and reverts, and the fork gate of the three
// opcode bytes.  Compared with Artela/Model/Memory.lean (M mcopy, TX) and the EIP-5656 specification (S memmove).

import (
	"context"
	"errors"
	"fmt"
	"math/big"
	"strings"

	"github.com/artela-network/artela-evm/vm"
	"github.com/ethereum/go-ethereum/common"
	"github.com/holiman/uint256"
)

type cstep struct {
	op    byte
	depth int
	cost  uint64
	top   string // stack top before the step ("-" if empty)
	mem   int
}

type cancunLogger struct{ steps []cstep }

func (l *cancunLogger) CaptureTxStart(uint64) {}
func (l *cancunLogger) CaptureTxEnd(uint64)   {}
func (l *cancunLogger) CaptureStart(*vm.EVM, common.Address, common.Address, bool, []byte, uint64, *big.Int) {
}
func (l *cancunLogger) CaptureEnd([]byte, uint64, error) {}
func (l *cancunLogger) CaptureEnter(vm.OpCode, common.Address, common.Address, []byte, uint64, *big.Int) {
}
func (l *cancunLogger) CaptureExit([]byte, uint64, error) {}
func (l *cancunLogger) CaptureFault(uint64, vm.OpCode, uint64, uint64, *vm.ScopeContext, int, error) {
}
func (l *cancunLogger) CaptureState(pc uint64, op vm.OpCode, gas, cost uint64, scope *vm.ScopeContext, rData []byte, depth int, err error) {
	top := "-"
	if d := scope.Stack.Data(); len(d) > 0 {
		top = hexNatU(&d[len(d)-1])
	}
	l.steps = append(l.steps, cstep{op: byte(op), depth: depth, cost: cost, top: top, mem: scope.Memory.Len()})
}

var mcopyVals = []uint64{0, 1, 31, 32, 33, 63, 64, 95, 96}

func mcopyOperand(r *Rng, memLen int) *uint256.Int {
	switch k := r.Intn(100); {
	case k < 55:
		return uint256.NewInt(mcopyVals[r.Intn(len(mcopyVals))])
	case k < 75:
		return uint256.NewInt(uint64(r.Intn(memLen + 40)))
	case k < 85:
		return uint256.NewInt(uint64(memLen - 1 + r.Intn(3)))
	default:
		return boundaryWord(r)
	}
}

type tnode struct {
	kind    string // S, L, C
	k, v    uint64
	ckind   byte
	target  common.Address
	body    []*tnode
	reverts bool
}

var tkindName = map[byte]string{opCALL: "call", opDELEGATECALL: "delegate", opCALLCODE: "callcode", opSTATICCALL: "static"}

func genTOps(r *Rng, depth int, next *int) []*tnode {
	n := 1 + r.Intn(5)
	var out []*tnode
	for i := 0; i < n; i++ {
		switch k := r.Intn(100); {
		case k < 35:
			// values: mostly fresh, sometimes 0 (what an untouched slot holds) or a small value likely to be the current one
			v := uint64(1 + r.Intn(250))
			if r.Chance(20) {
				v = 0
			} else if r.Chance(25) {
				v = uint64(1 + r.Intn(2))
			}
			out = append(out, &tnode{kind: "S", k: uint64(r.Intn(3)), v: v})
		case k < 70 || depth >= 3:
			out = append(out, &tnode{kind: "L", k: uint64(r.Intn(3))})
		default:
			*next++
			t := &tnode{kind: "C", ckind: []byte{opCALL, opDELEGATECALL, opCALLCODE, opSTATICCALL}[r.Intn(4)],
				target: common.BytesToAddress([]byte{0xd0, byte(*next)}), reverts: r.Chance(35)}
			t.body = genTOps(r, depth+1, next)
			out = append(out, t)
		}
	}
	return out
}

func tokensOf(ops []*tnode) string {
	var b []string
	for _, o := range ops {
		switch o.kind {
		case "S":
			b = append(b, fmt.Sprintf("S %x %x", o.k, o.v))
		case "L":
			b = append(b, fmt.Sprintf("L %x", o.k))
		case "C":
			rv := "0"
			if o.reverts {
				rv = "1"
			}
			b = append(b, fmt.Sprintf("C %s %s %s %x", tkindName[o.ckind], hexAddr(o.target), rv, len(o.body)))
			if len(o.body) > 0 {
				b = append(b, tokensOf(o.body))
			}
		}
	}
	return strings.Join(b, " ")
}

func compileTOps(ops []*tnode, reverts bool, depth int, install func(common.Address, []byte)) []byte {
	// fixed gas per sub-call by depth, so that failing (gas-consuming) children never starve their siblings
	subGas := []uint64{1_000_000, 150_000, 20_000, 2_000}[min(depth, 3)]
	a := &Asm{}
	for _, o := range ops {
		switch o.kind {
		case "S":
			a.PushU(o.v).PushU(o.k).Op(opTSTORE)
		case "L":
			a.PushU(o.k).Op(opTLOAD, opPOP)
		case "C":
			install(o.target, compileTOps(o.body, o.reverts, depth+1, install))
			a.Op(opPUSH1, 0, opPUSH1, 0, opPUSH1, 0, opPUSH1, 0)
			if o.ckind == opCALL || o.ckind == opCALLCODE {
				a.Op(opPUSH1, 0)
			}
			a.PushBytes(o.target[:])
			a.PushU(subGas)
			a.Op(o.ckind, opPOP)
		}
	}
	if reverts {
		a.Op(opPUSH1, 0, opPUSH1, 0, opREVERT)
	} else {
		a.Op(opSTOP)
	}
	return a.Bytes()
}

func driveCancun(seed uint64, n int, size int, em *Emitter) {
	r := NewRng(seed)
	initHost()
	// ---- (A) MCOPY instruction level
	for i := 0; i < n; i++ {
		em.Reset(fmt.Sprintf("cancun-mcopy-%d-%d", seed, i))
		memLen := []int{0, 32, 64, 96, 128}[r.Intn(5)]
		mem := r.Bytes(memLen)
		dst, src, ln := mcopyOperand(r, memLen), mcopyOperand(r, memLen), mcopyOperand(r, memLen)
		if r.Chance(10) {
			ln = uint256.NewInt(0)
		}
		a := &Asm{}
		a.Op(opCALLDATASIZE, opPUSH1, 0, opPUSH1, 0, opCALLDATACOPY)
		a.Push(ln).Push(src).Push(dst).Op(opMCOPY)
		a.Op(opMSIZE, opPUSH1, 0, opRETURN)
		gas := uint64(1_000_000)
		sdb := newStateDB()
		lg := &cancunLogger{}
		env := newEnv("Cancun", lg, nil, sdb, nil)
		env.evm.CloseAspectCall()
		sdb.CreateAccount(contractAddr)
		sdb.SetCode(contractAddr, a.Bytes())
		impl := ""
		func() {
			defer func() {
				if x := recover(); x != nil {
					impl = "panic"
				}
			}()
			ret, _, err := env.evm.Call(context.Background(), vm.AccountRef(callerAddr), contractAddr, mem, gas, new(big.Int))
			var st *cstep
			for k := range lg.steps {
				if lg.steps[k].op == opMCOPY {
					st = &lg.steps[k]
				}
			}
			if err != nil || st == nil {
				impl = "err"
			} else {
				impl = fmt.Sprintf("ok cost=%s mem=%s", hexU64(st.cost), hexBytes(ret))
			}
		}()
		line := fmt.Sprintf("%s %s %s %s %s", hexBytes(mem), hexU64(900_000), hexNatU(dst), hexNatU(src), hexNatU(ln))
		em.Op("C15,C03,C20", "M mcopy "+line, impl)
		em.Op("C15,C03", "S memmove "+line, impl)
		cls := "inrange"
		if impl == "err" {
			cls = "err"
		} else if ln.IsZero() {
			cls = "zero-length"
		} else if dst.Uint64() < src.Uint64()+ln.Uint64() && src.Uint64() < dst.Uint64()+ln.Uint64() {
			cls = "overlapping"
		}
		em.Count("mcopy:" + cls)
	}
	// ---- (B) transient storage frame programs
	for i := 0; i < n/2+1; i++ {
		em.Reset(fmt.Sprintf("cancun-transient-%d-%d", seed, i))
		next := 0
		ops := genTOps(r, 0, &next)
		sdb := newStateDB()
		lg := &cancunLogger{}
		env := newEnv("Cancun", lg, nil, sdb, nil)
		env.evm.CloseAspectCall()
		install := func(a common.Address, code []byte) { sdb.CreateAccount(a); sdb.SetCode(a, code) }
		install(contractAddr, compileTOps(ops, false, 0, install))
		_, _, err := env.evm.Call(context.Background(), vm.AccountRef(callerAddr), contractAddr, nil, 50_000_000, new(big.Int))
		// observations: after a TLOAD / call-kind step, the stack top of the next step at the same depth
		var obs []string
		type pend struct {
			depth int
			call  bool
		}
		var pending []pend
		for _, s := range lg.steps {
			for len(pending) > 0 && pending[len(pending)-1].depth > s.depth {
				// the frame that owed an observation ended exceptionally before its next step
				pending = pending[:len(pending)-1]
			}
			if len(pending) > 0 && pending[len(pending)-1].depth == s.depth {
				p := pending[len(pending)-1]
				pending = pending[:len(pending)-1]
				if p.call {
					obs = append(obs, "f:"+s.top)
				} else {
					obs = append(obs, "l:"+s.top)
				}
			}
			switch s.op {
			case opTLOAD:
				pending = append(pending, pend{s.depth, false})
			case opCALL, opCALLCODE, opDELEGATECALL, opSTATICCALL:
				pending = append(pending, pend{s.depth, true})
			}
		}
		st := "ok "
		if err != nil {
			st = "halt "
		}
		em.Op("C15,C04", fmt.Sprintf("TX %s %x %s", hexAddr(contractAddr), len(ops), tokensOf(ops)), st+listStr(obs))
		// C15 specification (EIP-1153): a TSTORE executed in a static context — the frame or an ancestor was entered by STATICCALL —
		// halts that frame there, whatever value it writes
		{
			static := map[int]bool{1: false}
			verdict := "ok"
			for k, s := range lg.steps {
				switch s.op {
				case opCALL, opCALLCODE, opDELEGATECALL:
					static[s.depth+1] = static[s.depth]
				case opSTATICCALL:
					static[s.depth+1] = true
				case opTSTORE:
					if static[s.depth] && k+1 < len(lg.steps) && lg.steps[k+1].depth >= s.depth && verdict == "ok" {
						verdict = fmt.Sprintf("tstore_of_key_%s_ran_in_static_frame_at_depth_%d", s.top, s.depth)
					}
				}
			}
			em.Op("C15", "S tstore-static", verdict)
		}
		em.Count(fmt.Sprintf("transient:subframes=%d", min(next, 4)))
		// second transaction on the same state database: Prepare empties transient storage
		if i%4 == 0 {
			sdb.Prepare(env.rules, common.Address{}, common.Address{}, nil, vm.ActivePrecompiles(env.rules), nil)
			lg.steps = nil
			sdb.SetCode(contractAddr, compileTOps([]*tnode{{kind: "L", k: 0}, {kind: "L", k: 1}, {kind: "L", k: 2}}, false, 0, install))
			env.evm.Call(context.Background(), vm.AccountRef(callerAddr), contractAddr, nil, 5_000_000, new(big.Int))
			var tops []string
			for k, s := range lg.steps {
				if s.op == opTLOAD && k+1 < len(lg.steps) {
					tops = append(tops, "l:"+lg.steps[k+1].top)
				}
			}
			em.Op("C15", fmt.Sprintf("TX %s 3 L 0 L 1 L 2", hexAddr(contractAddr)), "ok "+listStr(tops))
		}
	}
	// ---- (C) fork gate: the three bytes are invalid before Cancun
	for _, f := range forkNames {
		for _, op := range []byte{opTLOAD, opTSTORE, opMCOPY} {
			em.Reset(fmt.Sprintf("cancun-gate-%s-%x", f, op))
			sdb := newStateDB()
			lg := &cancunLogger{}
			env := newEnv(f, lg, nil, sdb, nil)
			env.evm.CloseAspectCall()
			sdb.CreateAccount(contractAddr)
			sdb.SetCode(contractAddr, []byte{opPUSH1, 0, opPUSH1, 0, opPUSH1, 0, op, opSTOP})
			_, _, err := env.evm.Call(context.Background(), vm.AccountRef(callerAddr), contractAddr, nil, 100000, new(big.Int))
			v := "valid"
			if err != nil {
				v = "invalid"
			}
			em.Op("C15", fmt.Sprintf("S gate %s %x", f, op), v)
		}
	}
	// ---- (E) flat fees: TLOAD / TSTORE cost their constant fee whatever gas the frame holds (no stipend sentry: EIP-1153)
	for _, op := range []byte{opTLOAD, opTSTORE} {
		need := uint64(3 + 100)
		code := []byte{opPUSH1, 1, op, opSTOP}
		if op == opTSTORE {
			need = 3 + 3 + 100
			code = []byte{opPUSH1, 7, opPUSH1, 1, op, opSTOP}
		}
		for _, g := range []uint64{need - 1, need, need + 1, 500, 2300, 2399, 2400, 2401, need + 2300, need + 2301, 5000, 100000} {
			em.Reset(fmt.Sprintf("cancun-fee-%x-%d", op, g))
			sdb := newStateDB()
			env := newEnv("Cancun", nil, nil, sdb, nil)
			env.evm.CloseAspectCall()
			sdb.CreateAccount(contractAddr)
			sdb.SetCode(contractAddr, code)
			_, left, err := env.evm.Call(context.Background(), vm.AccountRef(callerAddr), contractAddr, nil, g, new(big.Int))
			v := fmt.Sprintf("ok:%x", left)
			if err != nil {
				v = "err:" + strings.ReplaceAll(err.Error(), " ", "_")
			}
			em.Op("C15", fmt.Sprintf("S flatfee %x %x", op, g), v)
		}
	}
	// ---- (D) stack bounds: the instruction runs at every stack height its arity allows, up to the full 1024 items
	for _, op := range []byte{opTLOAD, opTSTORE, opMCOPY} {
		for _, h := range []int{0, 1, 2, 3, 4, 1021, 1022, 1023, 1024} {
			em.Reset(fmt.Sprintf("cancun-stack-%x-%d", op, h))
			sdb := newStateDB()
			env := newEnv("Cancun", nil, nil, sdb, nil)
			env.evm.CloseAspectCall()
			sdb.CreateAccount(contractAddr)
			code := []byte{}
			for k := 0; k < h; k++ {
				code = append(code, opPUSH1, 0)
			}
			code = append(code, op, opSTOP)
			sdb.SetCode(contractAddr, code)
			_, _, err := env.evm.Call(context.Background(), vm.AccountRef(callerAddr), contractAddr, nil, 1_000_000, new(big.Int))
			v := "ok"
			var su *vm.ErrStackUnderflow
			var so *vm.ErrStackOverflow
			switch {
			case errors.As(err, &su):
				v = "underflow"
			case errors.As(err, &so):
				v = "overflow"
			case err != nil:
				v = "err:" + strings.ReplaceAll(err.Error(), " ", "_")
			}
			em.Op("C15", fmt.Sprintf("S stackbounds %x %x", op, h), v)
		}
	}
}
