package main

// C17 support layer (search, not proof): N goroutines execute generated standard programs on separate state databases
// at the same time (with and without extra EIPs, join points on with nothing bound); every result and full step trace
// must equal the sequential run. A second goroutine calls Cancel at a random moment on a looping execution, which
// must return promptly without panic and with its bookkeeping closed. Built with -race in the thorough tier.

import (
	"context"
	"errors"
	"fmt"
	"math/big"
	"reflect"
	"strings"
	"sync"
	"time"

	"github.com/artela-network/artela-evm/vm"
	atypes "github.com/artela-network/aspect-core/types"
	"github.com/ethereum/go-ethereum/common"
	"github.com/holiman/uint256"
)

func genDiffCase(r *Rng, size int) *diffCase {
	c := &diffCase{fork: forkNames[r.Intn(13)], codes: map[common.Address][]byte{}, jpOn: r.Bool(), value: big.NewInt(int64([]int{0, 0, 9}[r.Intn(3)]))}
	if r.Chance(35) {
		all := []int{1344, 1884, 2200, 2929, 3198, 3855, 3860}
		c.extraEip = []int{all[r.Intn(len(all))]}
	}
	var addrs []common.Address
	for k := 0; k < 1+r.Intn(3); k++ {
		addrs = append(addrs, common.BytesToAddress([]byte{0xc0, 0, byte(k)}))
	}
	targets := append(append([]common.Address{}, addrs...), common.BytesToAddress([]byte{byte(1 + r.Intn(9))}))
	for _, a := range addrs {
		c.codes[a] = randomCode(r, 3+r.Intn(size+10), targets)
	}
	c.root = addrs[0]
	c.input = r.Bytes([]int{0, 4, 36}[r.Intn(3)])
	return c
}

var interleaveCfg, _ = forkConfig("Merge") // London rules + terminal total difficulty: whether opcode 0x44 is DIFFICULTY or PREVRANDAO depends on the block context

// detInterleaved runs one subject execution several times, with unrelated executions in between that share the subject's chain
// configuration value, block number and time and differ in another field of the block context (PREVRANDAO set or not, coinbase,
// base fee, gas limit); every subject run must return what the first one returned.
func detInterleaved(r *Rng) string {
	code := []byte{0x44, opPUSH1, 0, opMSTORE, 0x41, opPUSH1, 32, opMSTORE, 0x48, opPUSH1, 64, opMSTORE, 0x45, opPUSH1, 96, opMSTORE, opPUSH1, 128, opPUSH1, 0, opRETURN}
	run := func(random *common.Hash, number int64, coinbase byte, baseFee, gasLimit int64) (out string) {
		defer func() {
			if x := recover(); x != nil {
				out = "panic:" + strings.ReplaceAll(fmt.Sprint(x), " ", "_")
			}
		}()
		sdb := newStateDB()
		bctx := vm.BlockContext{
			CanTransfer: canTransfer, Transfer: vm.TransferFunc(doTransfer),
			GetHash:  func(n uint64) common.Hash { return common.Hash{} },
			Coinbase: common.BytesToAddress([]byte{coinbase}), GasLimit: uint64(gasLimit), BlockNumber: big.NewInt(number), Time: 1,
			Difficulty: big.NewInt(0x20000), BaseFee: big.NewInt(baseFee), Random: random,
		}
		e := vm.NewEVM(bctx, vm.TxContext{Origin: callerAddr, GasPrice: big.NewInt(1)}, sdb, interleaveCfg, vm.Config{})
		e.CloseAspectCall()
		a := common.BytesToAddress([]byte{0xc0, 7, 7})
		sdb.CreateAccount(a)
		sdb.SetCode(a, code)
		ret, left, err := e.Call(context.Background(), vm.AccountRef(callerAddr), a, nil, 100000, new(big.Int))
		return fmt.Sprintf("%x/%d/%v", ret, left, err)
	}
	rnd := common.Hash{0x11, 0x22}
	subject := func() string { return run(&rnd, 7, 0xc0, 7, 30_000_000) }
	first := subject()
	unrelated := []func(){
		func() { run(nil, 7, 0xc0, 7, 30_000_000) },  // same height, PREVRANDAO not set
		func() { run(&rnd, 7, 0xc1, 7, 30_000_000) }, // other coinbase
		func() { run(&rnd, 7, 0xc0, 9, 30_000_000) }, // other base fee
		func() { run(&rnd, 7, 0xc0, 7, 10_000_000) }, // other gas limit
		func() { run(nil, 8, 0xc0, 7, 30_000_000) },  // other height, PREVRANDAO not set
		func() { run(&rnd, 8, 0xc0, 7, 30_000_000) }, // other height
	}
	// every sequence of one or two unrelated executions, then the subject again (a one-entry cache keyed by too little needs
	// exactly two: one to evict the subject's entry, one to plant a wrong entry under the subject's key)
	_ = r
	for a := -1; a < len(unrelated); a++ {
		for b := range unrelated {
			if a >= 0 {
				unrelated[a]()
			}
			unrelated[b]()
			if again := subject(); again != first {
				return fmt.Sprintf("differs_after_unrelated_executions_%d_%d:", a, b) + strings.ReplaceAll(first+"_VS_"+again, " ", "_")
			}
		}
	}
	return "same"
}

func driveConc(seed uint64, n int, size int, em *Emitter) {
	r := NewRng(seed)
	initHost()
	frameAspects = map[common.Address]*aspectScript{}
	curProvider = func(ctx context.Context, c common.Address, pc atypes.PointCut) ([]*atypes.AspectCode, error) {
		return nil, nil
	}
	const workers = 8
	// all batches are generated up front, and every case that asks for no extra EIP is run once BEFORE any EVM with extra EIPs
	// has been built in this process: these first results are what "the instance run alone" means for the rest of the run (a
	// shared instruction table patched by some other instance's EIP activation would show up against them)
	batches := make([][]*diffCase, n)
	alone := make([][]runOut, n)
	for b := range batches {
		batches[b] = make([]*diffCase, workers*3)
		alone[b] = make([]runOut, workers*3)
		for i := range batches[b] {
			batches[b][i] = genDiffCase(r, size)
		}
	}
	sharedOf := map[int][]int{}
	for b := range batches {
		// half of the batches build all their EVMs from one configuration value (decided here, before the reference runs)
		if b%2 == 0 {
			all := []int{1344, 1884, 2200, 2929, 3198, 3855, 3860}
			var shared []int
			if b == 0 || r.Chance(70) {
				shared = append(shared, 9999)
			}
			for k := 1 + r.Intn(3); k > 0; k-- {
				shared = append(shared, all[r.Intn(len(all))])
			}
			sharedOf[b] = shared
		}
	}
	for b := range batches {
		if _, ok := sharedOf[b]; ok {
			continue
		}
		for i, c := range batches[b] {
			if len(c.extraEip) == 0 {
				alone[b][i] = runFork(c, 2_000_000, true)
			}
		}
	}
	for b := 0; b < n; b++ {
		em.Reset(fmt.Sprintf("conc-%d-%d", seed, b))
		cases := batches[b]
		// half of the batches build all their EVMs from one configuration value: the same ExtraEips slice (one EIP that does
		// not exist first, so that the activated list is shorter than the configured one)
		var shared, sharedOrig []int
		if sh, ok := sharedOf[b]; ok {
			shared = sh
			sharedOrig = append([]int{}, shared...)
			for _, c := range cases {
				c.extraEip = shared
			}
			em.Count("conc:shared-config")
		}
		seq := make([]runOut, len(cases))
		for i, c := range cases {
			seq[i] = runFork(c, 2_000_000, true)
		}
		par := make([]runOut, len(cases))
		var wg sync.WaitGroup
		for w := 0; w < workers; w++ {
			wg.Add(1)
			go func(w int) {
				defer wg.Done()
				for i := w; i < len(cases); i += workers {
					par[i] = runFork(cases[i], 2_000_000, true)
				}
			}(w)
		}
		wg.Wait()
		v := "same"
		for i := range cases {
			if seq[i].summary != par[i].summary {
				v = "differs:result:" + strings.ReplaceAll(seq[i].summary, " ", "_") + "|" + strings.ReplaceAll(par[i].summary, " ", "_")
				break
			}
			if d := firstDiff(seq[i].trace, par[i].trace); d != "" {
				v = "differs:" + d
				break
			}
		}
		for i := range cases {
			if v == "same" && alone[b][i].summary != "" && (alone[b][i].summary != seq[i].summary || firstDiff(alone[b][i].trace, seq[i].trace) != "") {
				v = "differs_from_the_run_alone_before_any_extra_EIP_was_enabled_in_this_process:" + strings.ReplaceAll(alone[b][i].summary, " ", "_") + "|" + strings.ReplaceAll(seq[i].summary, " ", "_")
			}
		}
		if v == "same" && !reflect.DeepEqual(shared, sharedOrig) {
			v = fmt.Sprintf("caller_configuration_modified:%v->%v", sharedOrig, shared)
			v = strings.ReplaceAll(v, " ", ",")
		}
		em.Op("C17,C16", "S conc-same", v)
		em.Count(fmt.Sprintf("conc:cases=%d", len(cases)))

		// C16: an execution depends on its own context only — not on what other EVMs (same chain configuration value, same height
		// and time, a block context that differs in one field) ran before it in this process
		em.Op("C16,C17", "S det-interleaved", detInterleaved(r))

		// the journal instructions from several instances at once: long strings (hashed slot positions, multi-slot reads) journaled
		// hundreds of times per instance; every instance must record exactly what its own storage holds
		em.Op("C17,C09", "S conc-journal", concJournal(r))

		// C16: what one instance recorded and handed back (call tree with calldata and return data of every call, the bytes
		// returned to the embedder) is not changed by another instance running afterwards on its own state database
		em.Op("C16,C17", "S recorded-stable", recordedStable(r, cases))

		// the Artela precompiles from several instances at once (context reads, JIT sender lookups and context writes, which
		// carry the caller they are made for): every instance must see what the model of the precompile says for it alone
		concArtela(r, em, seed, b)

		// cancellation of a looping execution from another goroutine: the loop runs in the top-level frame, one call down, in the
		// init code of a CREATE one level down, or in the init code of a top-level creation; a counting debug tracer is attached
		// half of the time (its start/end and enter/exit callbacks are part of the bookkeeping that must be closed)
		for variant := 0; variant < 4; variant++ {
			sdb := newStateDB()
			var cl *countLogger
			var tr vm.EVMLogger
			if variant >= 2 || r.Bool() {
				cl = &countLogger{}
				tr = cl
			}
			env := newEnv(forkNames[4+r.Intn(8)], tr, nil, sdb, nil)
			env.evm.CloseAspectCall()
			loop := common.BytesToAddress([]byte{0xc0, 9, 9})
			code := []byte{opJUMPDEST, opPUSH1, 0, opPUSH1, 0, opMSTORE, opPUSH1, 0, opJUMP}
			topCreate := false
			install := func(a common.Address, c []byte) {
				sdb.CreateAccount(a)
				sdb.SetCode(a, c)
				if env.rules.IsBerlin {
					sdb.AddAddressToAccessList(a)
				}
			}
			switch variant {
			case 0:
				install(loop, code)
			case 1:
				// the loop runs one level down
				a := &Asm{}
				a.Op(opPUSH1, 0, opPUSH1, 0, opPUSH1, 0, opPUSH1, 0, opPUSH1, 0).PushBytes(loop[:]).Op(opGAS, opCALL, opSTOP)
				outer := common.BytesToAddress([]byte{0xc0, 9, 8})
				install(outer, a.Bytes())
				install(loop, code)
				loop = outer
			case 2:
				// the loop is the init code of a CREATE issued one level down
				a := &Asm{}
				for j, b := range code {
					a.Op(opPUSH1, b).PushU(uint64(j)).Op(0x53)
				}
				a.PushU(uint64(len(code))).PushU(0).PushU(0).Op(opCREATE, opSTOP)
				install(loop, a.Bytes())
			default:
				topCreate = true
			}
			done := make(chan string, 1)
			go func() {
				res := "ok"
				defer func() {
					if x := recover(); x != nil {
						res = "panic:" + strings.ReplaceAll(fmt.Sprint(x), " ", "_")
					}
					done <- res
				}()
				if topCreate {
					env.evm.Create(context.Background(), vm.AccountRef(callerAddr), code, 1<<50, new(big.Int))
				} else {
					env.evm.Call(context.Background(), vm.AccountRef(callerAddr), loop, nil, 1<<50, new(big.Int))
				}
			}()
			time.Sleep(time.Duration(r.Intn(3000)) * time.Microsecond)
			env.evm.Cancel()
			verdict := ""
			select {
			case verdict = <-done:
			case <-time.After(10 * time.Second):
				verdict = "did_not_stop_within_10s"
			}
			if verdict == "ok" {
				if d := reflect.ValueOf(env.evm).Elem().FieldByName("depth").Int(); d != 0 {
					verdict = fmt.Sprintf("depth_%d_after_cancel", d)
				} else if env.evm.Tracer().CallTree().Current() != nil {
					verdict = "call_left_open_after_cancel"
				} else if cl != nil && (cl.starts != cl.ends || cl.enters != cl.exits) {
					verdict = fmt.Sprintf("debug_callbacks_left_open_after_cancel:start=%d:end=%d:enter=%d:exit=%d:variant=%d", cl.starts, cl.ends, cl.enters, cl.exits, variant)
				}
			}
			em.Count(fmt.Sprintf("conc:cancel-variant=%d:tracer=%v", variant, cl != nil))
			em.Op("C17,C03", "S cancel-safe", verdict)
		}
	}
}

// countLogger counts the frame callbacks of the debug tracer.
type countLogger struct{ starts, ends, enters, exits int }

func (l *countLogger) CaptureTxStart(uint64) {}
func (l *countLogger) CaptureTxEnd(uint64)   {}
func (l *countLogger) CaptureStart(*vm.EVM, common.Address, common.Address, bool, []byte, uint64, *big.Int) {
	l.starts++
}
func (l *countLogger) CaptureEnd([]byte, uint64, error) { l.ends++ }
func (l *countLogger) CaptureEnter(vm.OpCode, common.Address, common.Address, []byte, uint64, *big.Int) {
	l.enters++
}
func (l *countLogger) CaptureExit([]byte, uint64, error) { l.exits++ }
func (l *countLogger) CaptureState(uint64, vm.OpCode, uint64, uint64, *vm.ScopeContext, []byte, int, error) {
}
func (l *countLogger) CaptureFault(uint64, vm.OpCode, uint64, uint64, *vm.ScopeContext, int, error) {
}

// forwarderGas is forwarder with a fixed gas operand for the call it makes.
func forwarderGas(kind byte, to common.Address, gas uint64) []byte {
	a := &Asm{}
	a.Op(opCALLDATASIZE, opPUSH1, 0, opPUSH1, 0, opCALLDATACOPY)
	a.Op(opPUSH1, 0, opPUSH1, 0, opCALLDATASIZE, opPUSH1, 0)
	if kind == opCALL || kind == opCALLCODE {
		a.Op(opPUSH1, 0)
	}
	a.PushBytes(to[:])
	a.PushU(gas).Op(kind, opPOP, opSTOP)
	return a.Bytes()
}

type artelaCase struct {
	addrB   byte
	input   []byte
	fork    string
	hops    []byte
	lastGas uint64 // gas operand of the hop that reaches the precompile
	ret     []byte
	refuse  bool
	idx     int
}

func (c *artelaCase) fw(j int) common.Address {
	return common.BytesToAddress([]byte{0xf0, byte(c.idx + 1), byte(j + 1)})
}

// run executes the case on a fresh state database and EVM; the host's answers and log travel in the call's context
func (c *artelaCase) run() (impl string, ctxTok string, rec *hostRec) {
	addr := common.BytesToAddress([]byte{c.addrB})
	sdb := newStateDB()
	lg := &pcLogger{target: addr}
	env := newEnv(c.fork, lg, nil, sdb, nil)
	env.evm.CloseAspectCall()
	depth := len(c.hops)
	storage := c.fw(0)
	for j := 0; j < depth; j++ {
		to := addr
		if j+1 < depth {
			to = c.fw(j + 1)
		}
		sdb.CreateAccount(c.fw(j))
		if j+1 == depth {
			sdb.SetCode(c.fw(j), forwarderGas(c.hops[j], to, c.lastGas))
		} else {
			sdb.SetCode(c.fw(j), forwarder(c.hops[j], to))
		}
		if j+1 < depth && (c.hops[j] == opCALL || c.hops[j] == opSTATICCALL) {
			storage = c.fw(j + 1)
		}
	}
	ctxTok = "-"
	if c.hops[depth-1] == opCALL {
		ctxTok = hexAddr(storage)
	}
	rec = &hostRec{ret: c.ret, fail: map[string]error{}}
	if c.refuse {
		e := errors.New("host refused")
		rec.fail["get"], rec.fail["set"], rec.fail["jit"] = e, e, e
	}
	func() {
		defer func() {
			if x := recover(); x != nil {
				impl = "panic"
			}
		}()
		ctx := context.WithValue(context.Background(), hostRecKey{}, rec)
		env.evm.Call(ctx, vm.AccountRef(common.BytesToAddress([]byte{0xca, byte(c.idx)})), c.fw(0), c.input, 5_000_000, new(big.Int))
		if !lg.seen {
			impl = "not-reached"
		} else if lg.err != nil {
			impl = fmt.Sprintf("host=%s res=err", rec.logStr())
		} else {
			impl = fmt.Sprintf("host=%s res=ok:%s", rec.logStr(), hexBytes(lg.out))
		}
	}()
	return
}

func concArtela(r *Rng, em *Emitter, seed uint64, b int) {
	const workers = 8
	kinds := []byte{opCALL, opCALL, opCALLCODE, opDELEGATECALL, opSTATICCALL}
	cases := make([]*artelaCase, workers*3)
	for i := range cases {
		c := &artelaCase{idx: i, addrB: []byte{0x64, 0x65, 0x66, 0x66, 0x66}[r.Intn(5)], fork: []string{"Berlin", "London", "Shanghai", "Cancun"}[r.Intn(4)]}
		c.input, _ = genPayload(r, c.addrB)
		c.hops = make([]byte, 1+r.Intn(3))
		for j := range c.hops {
			c.hops[j] = kinds[r.Intn(len(kinds))]
		}
		if r.Chance(45) {
			c.hops[len(c.hops)-1] = opCALL
		}
		c.lastGas = []uint64{1_000_000, 1_000_000, 1_000_000, 1_000_000, 1_000_000, 4999, 5000}[r.Intn(7)]
		c.ret = r.Bytes(r.Intn(40))
		if c.addrB == 0x65 {
			c.ret = r.Bytes(20)
		}
		c.refuse = r.Chance(10)
		cases[i] = c
	}
	type res struct{ impl, ctxTok string }
	seq := make([]res, len(cases))
	for i, c := range cases {
		seq[i].impl, seq[i].ctxTok, _ = c.run()
	}
	par := make([]res, len(cases))
	var wg sync.WaitGroup
	for rep := 0; rep < 3; rep++ {
		for w := 0; w < workers; w++ {
			wg.Add(1)
			go func(w int) {
				defer wg.Done()
				for i := w; i < len(cases); i += workers {
					impl, tok, _ := cases[i].run()
					if rep == 0 || impl != seq[i].impl {
						par[i] = res{impl, tok}
					}
				}
			}(w)
		}
		wg.Wait()
	}
	v := "same"
	for i, c := range cases {
		herr := "-"
		if c.refuse {
			herr = "host_refused"
		}
		// each instance against the model of the precompile (sequential and concurrent run), and the two runs against each other
		line := fmt.Sprintf("PB %x 1 %s %s %s %s %s", c.addrB, seq[i].ctxTok, hexBytes(c.ret), herr, hexU64(c.lastGas), hexBytes(c.input))
		em.Op("C17,C14", line, seq[i].impl)
		em.Op("C17,C14", line, par[i].impl)
		if v == "same" && seq[i].impl != par[i].impl {
			v = "differs:instance_" + fmt.Sprint(i) + ":alone=" + seq[i].impl + "|concurrent=" + par[i].impl
		}
		em.Count(fmt.Sprintf("conc:artela:%x:%s:gas=%d", c.addrB, callKindNames[c.hops[len(c.hops)-1]], c.lastGas))
	}
	em.Op("C17", "S conc-artela-same", strings.ReplaceAll(v, " ", "_"))
}

// recordedStable: a first instance runs a program whose calls end in REVERT / RETURN with data taken from memory; its call tree
// and returned bytes are rendered, then other instances run generated programs (which use memory), and the first instance's
// records are rendered again.
func recordedStable(r *Rng, others []*diffCase) string {
	render := func(e *vm.EVM, ret []byte) string {
		var sb strings.Builder
		ct := e.Tracer().CallTree()
		for i := uint64(0); ; i++ {
			c := ct.FindCall(i)
			if c == nil {
				break
			}
			fmt.Fprintf(&sb, "%d:%x/%x/%d/%v;", i, c.Data, c.Ret, c.RemainingGas, c.Err)
		}
		fmt.Fprintf(&sb, "ret=%x", ret)
		return sb.String()
	}
	for round := 0; round < 3; round++ {
		sdb := newStateDB()
		env := newEnv(forkNames[4+r.Intn(8)], nil, nil, sdb, nil)
		env.evm.CloseAspectCall()
		root := common.BytesToAddress([]byte{0xc0, 8, 0})
		kids := []common.Address{common.BytesToAddress([]byte{0xc0, 8, 1}), common.BytesToAddress([]byte{0xc0, 8, 2}), common.BytesToAddress([]byte{0xc0, 8, 3})}
		for j, k := range kids {
			// fill 32..96 bytes of memory with a byte of its own, end in REVERT / RETURN of a window of it
			a := &Asm{}
			fill := new(uint256.Int).SetBytes(bytesOf(byte(0xa1+j), 32))
			for w := 0; w < 1+r.Intn(3); w++ {
				a.Push(fill).PushU(uint64(32 * w)).Op(opMSTORE)
			}
			a.PushU(uint64(8 + r.Intn(56))).PushU(uint64(r.Intn(8))).Op([]byte{opREVERT, opREVERT, opRETURN}[r.Intn(3)])
			sdb.CreateAccount(k)
			sdb.SetCode(k, a.Bytes())
		}
		a := &Asm{}
		for _, k := range kids {
			a.PushU(0).PushU(0).PushU(uint64(r.Intn(33))).PushU(0).PushU(0).PushBytes(k[:]).Op(opGAS, opCALL, opPOP)
		}
		a.Push(new(uint256.Int).SetBytes(bytesOf(0xee, 32))).PushU(0).Op(opMSTORE)
		a.PushU(uint64(4 + r.Intn(28))).PushU(0).Op([]byte{opREVERT, opRETURN}[r.Intn(2)])
		sdb.CreateAccount(root)
		sdb.SetCode(root, a.Bytes())
		if env.rules.IsBerlin {
			sdb.AddAddressToAccessList(root)
		}
		ret, _, _ := env.evm.Call(context.Background(), vm.AccountRef(callerAddr), root, r.Bytes(r.Intn(40)), 3_000_000, new(big.Int))
		before := render(env.evm, ret)
		for k := 0; k < 3 && len(others) > 0; k++ {
			runFork(others[r.Intn(len(others))], 2_000_000, false)
		}
		// and one that certainly writes memory
		sdb2 := newStateDB()
		env2 := newEnv(forkNames[4+r.Intn(8)], nil, nil, sdb2, nil)
		env2.evm.CloseAspectCall()
		w := common.BytesToAddress([]byte{0xc0, 8, 9})
		sdb2.CreateAccount(w)
		sdb2.SetCode(w, []byte{0x7f, 0xbb, 0xbb, 0xbb, 0xbb, 0xbb, 0xbb, 0xbb, 0xbb, 0xbb, 0xbb, 0xbb, 0xbb, 0xbb, 0xbb, 0xbb, 0xbb, 0xbb, 0xbb, 0xbb, 0xbb, 0xbb, 0xbb, 0xbb, 0xbb, 0xbb, 0xbb, 0xbb, 0xbb, 0xbb, 0xbb, 0xbb, 0xbb,
			opPUSH1, 0, opMSTORE, 0x7f, 0xbb, 0xbb, 0xbb, 0xbb, 0xbb, 0xbb, 0xbb, 0xbb, 0xbb, 0xbb, 0xbb, 0xbb, 0xbb, 0xbb, 0xbb, 0xbb, 0xbb, 0xbb, 0xbb, 0xbb, 0xbb, 0xbb, 0xbb, 0xbb, 0xbb, 0xbb, 0xbb, 0xbb, 0xbb, 0xbb, 0xbb, 0xbb,
			opPUSH1, 32, opMSTORE, opSTOP})
		env2.evm.Call(context.Background(), vm.AccountRef(callerAddr), w, nil, 100000, new(big.Int))
		if after := render(env.evm, ret); after != before {
			return "records_of_a_finished_execution_changed_while_other_instances_ran:" + strings.ReplaceAll(before, " ", "_") + "_VS_" + strings.ReplaceAll(after, " ", "_")
		}
	}
	return "same"
}

func bytesOf(b byte, n int) []byte {
	out := make([]byte, n)
	for i := range out {
		out[i] = b
	}
	return out
}

// concJournal: 8 instances, each with its own state database holding 2-3 strings of 32..100 bytes, register them and run the
// reference journal on each of them 150 times; alone first, then all at once for several rounds.
func concJournal(r *Rng) string {
	const workers = 8
	typ := uint256.NewInt(9)
	type inst struct {
		c        *jcase
		code     []byte
		slots    []*uint256.Int
		contents [][]byte
	}
	insts := make([]*inst, workers)
	for w := range insts {
		st := map[common.Hash]common.Hash{}
		c := &jcase{fork: forkNames[4+r.Intn(9)], storage: st}
		in := &inst{c: c}
		k := 2 + r.Intn(2)
		for i := 0; i < k; i++ {
			slot := uint256.NewInt(uint64(3 + 8*i))
			content := stringContent(r, []int{100, 70, 64, 40, 33, 32}[r.Intn(6)])
			content[0] = byte(0x10*w + i + 1) // distinguishable across instances and variables
			putString(st, slot, content)
			in.slots, in.contents = append(in.slots, slot), append(in.contents, content)
			lw := uint256.NewInt(1).Bytes32()
			c.mem = append(c.mem, pad32(append(lw[:], byte('s'+i)))...)
			c.ops = append(c.ops, jinstr{op: 0, args: []*uint256.Int{uint256.NewInt(uint64(64 * i)), slot, typ}})
		}
		for rep := 0; rep < 150; rep++ {
			for i := 0; i < k; i++ {
				c.ops = append(c.ops, jinstr{op: 7, args: []*uint256.Int{in.slots[i], typ}})
			}
		}
		in.code = c.program()
		insts[w] = in
	}
	run := func(in *inst) (out string) {
		defer func() {
			if x := recover(); x != nil {
				out = "panic:" + strings.ReplaceAll(fmt.Sprint(x), " ", "_")
			}
		}()
		sdb := newStateDB()
		env := newEnvDB(in.c.fork, nil, nil, sdb, sdb)
		sdb.CreateAccount(contractAddr)
		sdb.SetCode(contractAddr, in.code)
		for k, v := range in.c.storage {
			sdb.SetState(contractAddr, k, v)
		}
		env.evm.CloseAspectCall()
		_, _, err := env.evm.Call(context.Background(), vm.AccountRef(callerAddr), contractAddr, in.c.mem, 30_000_000, new(big.Int))
		if err != nil {
			return "halted:" + strings.ReplaceAll(err.Error(), " ", "_")
		}
		for i, slot := range in.slots {
			ch, e := env.evm.Tracer().StateChanges().Slot(contractAddr, slot, nil, typ.Bytes32())
			got := "none"
			if e == nil && ch != nil {
				if l := ch.Changes()[0]; len(l) == 1 {
					got = hexBytes(l[0])
				} else {
					got = fmt.Sprintf("%d_entries", len(l))
				}
			}
			if got != hexBytes(in.contents[i]) {
				return fmt.Sprintf("variable_%d_recorded_as_%.80s_storage_holds_%.80s", i, got, hexBytes(in.contents[i]))
			}
		}
		return "ok"
	}
	for w, in := range insts {
		if v := run(in); v != "ok" {
			return fmt.Sprintf("alone:instance_%d:%s", w, v)
		}
	}
	for round := 0; round < 4; round++ {
		res := make([]string, workers)
		var wg sync.WaitGroup
		for w := range insts {
			wg.Add(1)
			go func(w int) {
				defer wg.Done()
				res[w] = run(insts[w])
			}(w)
		}
		wg.Wait()
		for w, v := range res {
			if v != "ok" {
				return fmt.Sprintf("concurrent_round_%d:instance_%d:%s", round, w, v)
			}
		}
	}
	return "same"
}
