package main

// C17 support layer (search, not proof): N goroutines execute generated standard programs on separate state databases
// at the same time (with and without extra EIPs, join points on with nothing bound); every result and full step trace
// must equal the sequential run. A second goroutine calls Cancel at a random moment on a looping execution, which
// must return promptly without panic and with its bookkeeping closed. Built with -race in the thorough tier.

import (
	"context"
	"fmt"
	"math/big"
	"reflect"
	"strings"
	"sync"
	"time"

	"github.com/artela-network/artela-evm/vm"
	atypes "github.com/artela-network/aspect-core/types"
	"github.com/ethereum/go-ethereum/common"
)

func genDiffCase(r *Rng, size int) *diffCase {
	c := &diffCase{fork: forkNames[r.Intn(13)], codes: map[common.Address][]byte{}, jpOn: r.Bool(), value: big.NewInt(int64([]int{0, 0, 9}[r.Intn(3)]))}
	if r.Chance(35) {
		all := []int{1344, 1884, 2200, 2929, 3198, 3855, 3860}
		c.extraEip = []int{all[r.Intn(len(all))]}
	}
	var addrs []common.Address
	for k := 0; k < 1+r.Intn(3); k++ {
		addrs = append(addrs, common.BytesToAddress([]byte{0xc0, 0, byte(k)}))
	}
	targets := append(append([]common.Address{}, addrs...), common.BytesToAddress([]byte{byte(1 + r.Intn(9))}))
	for _, a := range addrs {
		c.codes[a] = randomCode(r, 3+r.Intn(size+10), targets)
	}
	c.root = addrs[0]
	c.input = r.Bytes([]int{0, 4, 36}[r.Intn(3)])
	return c
}

func driveConc(seed uint64, n int, size int, em *Emitter) {
	r := NewRng(seed)
	initHost()
	frameAspects = map[common.Address]*aspectScript{}
	curProvider = func(ctx context.Context, c common.Address, pc atypes.PointCut) ([]*atypes.AspectCode, error) {
		return nil, nil
	}
	const workers = 8
	for b := 0; b < n; b++ {
		em.Reset(fmt.Sprintf("conc-%d-%d", seed, b))
		cases := make([]*diffCase, workers*3)
		for i := range cases {
			cases[i] = genDiffCase(r, size)
		}
		// half of the batches build all their EVMs from one configuration value: the same ExtraEips slice (one EIP that does
		// not exist first, so that the activated list is shorter than the configured one)
		var shared, sharedOrig []int
		if b%2 == 0 {
			all := []int{1344, 1884, 2200, 2929, 3198, 3855, 3860}
			if b == 0 || r.Chance(70) {
				shared = append(shared, 9999)
			}
			for k := 1 + r.Intn(3); k > 0; k-- {
				shared = append(shared, all[r.Intn(len(all))])
			}
			sharedOrig = append([]int{}, shared...)
			for _, c := range cases {
				c.extraEip = shared
			}
			em.Count("conc:shared-config")
		}
		seq := make([]runOut, len(cases))
		for i, c := range cases {
			seq[i] = runFork(c, 2_000_000, true)
		}
		par := make([]runOut, len(cases))
		var wg sync.WaitGroup
		for w := 0; w < workers; w++ {
			wg.Add(1)
			go func(w int) {
				defer wg.Done()
				for i := w; i < len(cases); i += workers {
					par[i] = runFork(cases[i], 2_000_000, true)
				}
			}(w)
		}
		wg.Wait()
		v := "same"
		for i := range cases {
			if seq[i].summary != par[i].summary {
				v = "differs:result:" + strings.ReplaceAll(seq[i].summary, " ", "_") + "|" + strings.ReplaceAll(par[i].summary, " ", "_")
				break
			}
			if d := firstDiff(seq[i].trace, par[i].trace); d != "" {
				v = "differs:" + d
				break
			}
		}
		if v == "same" && !reflect.DeepEqual(shared, sharedOrig) {
			v = fmt.Sprintf("caller_configuration_modified:%v->%v", sharedOrig, shared)
			v = strings.ReplaceAll(v, " ", ",")
		}
		em.Op("C17,C16", "S conc-same", v)
		em.Count(fmt.Sprintf("conc:cases=%d", len(cases)))

		// cancellation of a looping execution from another goroutine
		sdb := newStateDB()
		env := newEnv(forkNames[4+r.Intn(8)], nil, nil, sdb, nil)
		env.evm.CloseAspectCall()
		loop := common.BytesToAddress([]byte{0xc0, 9, 9})
		code := []byte{opJUMPDEST, opPUSH1, 0, opPUSH1, 0, opMSTORE, opPUSH1, 0, opJUMP}
		if r.Bool() {
			// the loop runs one level down
			a := &Asm{}
			a.Op(opPUSH1, 0, opPUSH1, 0, opPUSH1, 0, opPUSH1, 0, opPUSH1, 0).PushBytes(loop[:]).Op(opGAS, opCALL, opSTOP)
			outer := common.BytesToAddress([]byte{0xc0, 9, 8})
			sdb.CreateAccount(outer)
			sdb.SetCode(outer, a.Bytes())
			sdb.CreateAccount(loop)
			sdb.SetCode(loop, code)
			if env.rules.IsBerlin {
				sdb.AddAddressToAccessList(outer)
			}
			loop = outer
		} else {
			sdb.CreateAccount(loop)
			sdb.SetCode(loop, code)
			if env.rules.IsBerlin {
				sdb.AddAddressToAccessList(loop)
			}
		}
		done := make(chan string, 1)
		go func() {
			res := "ok"
			defer func() {
				if x := recover(); x != nil {
					res = "panic:" + strings.ReplaceAll(fmt.Sprint(x), " ", "_")
				}
				done <- res
			}()
			env.evm.Call(context.Background(), vm.AccountRef(callerAddr), loop, nil, 1<<50, new(big.Int))
		}()
		time.Sleep(time.Duration(r.Intn(3000)) * time.Microsecond)
		env.evm.Cancel()
		verdict := ""
		select {
		case verdict = <-done:
		case <-time.After(10 * time.Second):
			verdict = "did_not_stop_within_10s"
		}
		if verdict == "ok" {
			if d := reflect.ValueOf(env.evm).Elem().FieldByName("depth").Int(); d != 0 {
				verdict = fmt.Sprintf("depth_%d_after_cancel", d)
			} else if env.evm.Tracer().CallTree().Current() != nil {
				verdict = "call_left_open_after_cancel"
			}
		}
		em.Op("C17,C03", "S cancel-safe", verdict)
	}
}
