package main

import (
	"bufio"
	"encoding/hex"
	"fmt"
	"math/big"
	"os"
	"sort"
	"strings"

	"github.com/ethereum/go-ethereum/common"
	"github.com/holiman/uint256"
)

// ---- PRNG: every random choice of the harness comes from one splitmix64 state ----

type Rng struct{ s uint64 }

// NewRng: the state is the seed passed through the generator's own finaliser, so that the streams of nearby seeds (shards of
// one run are a fixed distance apart) are unrelated; a state of the form seed*γ + c would make seed S after k draws equal seed S+k.
func NewRng(seed uint64) *Rng {
	z := seed + 0x9E3779B97F4A7C15
	z = (z ^ (z >> 30)) * 0xBF58476D1CE4E5B9
	z = (z ^ (z >> 27)) * 0x94D049BB133111EB
	return &Rng{s: z ^ (z >> 31)}
}
func (r *Rng) Next() uint64 {
	r.s += 0x9E3779B97F4A7C15
	z := r.s
	z = (z ^ (z >> 30)) * 0xBF58476D1CE4E5B9
	z = (z ^ (z >> 27)) * 0x94D049BB133111EB
	return z ^ (z >> 31)
}
func (r *Rng) Intn(n int) int {
	if n <= 0 {
		return 0
	}
	return int(r.Next() % uint64(n))
}
func (r *Rng) Bool() bool        { return r.Next()&1 == 1 }
func (r *Rng) Chance(p int) bool { return r.Intn(100) < p }
func (r *Rng) Bytes(n int) []byte {
	b := make([]byte, n)
	for i := range b {
		b[i] = byte(r.Next())
	}
	return b
}
func (r *Rng) Fork() *Rng { return NewRng(r.Next()) }

// ---- canonical text forms shared with the Lean driver (Driver/Codec.lean) ----

func hexNatBig(b *big.Int) string {
	if b == nil {
		return "-"
	}
	return b.Text(16)
}
func hexNatU(u *uint256.Int) string {
	if u == nil {
		return "-"
	}
	return u.ToBig().Text(16)
}
func hexU64(u uint64) string          { return fmt.Sprintf("%x", u) }
func hexAddr(a common.Address) string { return new(big.Int).SetBytes(a[:]).Text(16) }
func hexAddrP(a *common.Address) string {
	if a == nil {
		return "-"
	}
	return hexAddr(*a)
}
func hexHash(h common.Hash) string { return new(big.Int).SetBytes(h[:]).Text(16) }
func hexBytes(b []byte) string     { return "x" + hex.EncodeToString(b) }
func optBytes(b []byte) string {
	if b == nil {
		return "-"
	}
	return hexBytes(b)
}
func errStr(e error) string {
	if e == nil {
		return "-"
	}
	return strings.ReplaceAll(e.Error(), " ", "_")
}
func okErr(e error) string {
	if e == nil {
		return "ok"
	}
	return "err:" + strings.ReplaceAll(e.Error(), " ", "_")
}
func listStr(l []string) string { return "[" + strings.Join(l, ",") + "]" }
func bytesList(l [][]byte) string {
	if len(l) == 0 {
		return "."
	}
	s := make([]string, len(l))
	for i, b := range l {
		s[i] = hexBytes(b)
	}
	return strings.Join(s, ",")
}
func showChangeMap(m map[uint64][][]byte) string {
	keys := make([]uint64, 0, len(m))
	for k := range m {
		keys = append(keys, k)
	}
	sort.Slice(keys, func(i, j int) bool { return keys[i] < keys[j] })
	parts := make([]string, 0, len(keys))
	for _, k := range keys {
		vs := make([]string, len(m[k]))
		for i, v := range m[k] {
			vs[i] = hexBytes(v)
		}
		parts = append(parts, hexU64(k)+":"+listStr(vs))
	}
	return "{" + strings.Join(parts, ";") + "}"
}

// ---- emitter: one line per operation, "<op>\t<implementation answer>" ----

type Emitter struct {
	Capture *[][3]string // when set, lines are captured in memory instead of written
	w       *bufio.Writer
	f       *os.File
	Lines   int
	Cases   int
	Stats   map[string]int
	Sample  []string
}

func NewEmitter(path string) *Emitter {
	f, err := os.Create(path)
	if err != nil {
		panic(err)
	}
	return &Emitter{w: bufio.NewWriterSize(f, 1<<20), f: f, Stats: map[string]int{}}
}

// Op writes "<tags>\t<op>\t<impl>"; tags = comma-separated property ids whose check compares
// this line ("*" = every check; "-" = fed to the model, answer not compared).
func (e *Emitter) Op(tags, op, impl string) {
	if strings.ContainsAny(op, "\t\n") || strings.ContainsAny(impl, "\t\n") {
		panic("bad char in line: " + op)
	}
	if e.Capture != nil {
		*e.Capture = append(*e.Capture, [3]string{tags, op, impl})
		return
	}
	fmt.Fprintf(e.w, "%s\t%s\t%s\n", tags, op, impl)
	e.Lines++
}
func (e *Emitter) Reset(label string) {
	e.Op("-", "R "+label, "ok")
	e.Cases++
}
func (e *Emitter) Count(k string) { e.Stats[k]++ }

// Merge adds the counters of a capturing emitter.
func (e *Emitter) Merge(o *Emitter) {
	for k, v := range o.Stats {
		e.Stats[k] += v
	}
	e.Cases += o.Cases
}

// captureEmitter returns an emitter that records lines in memory.
func captureEmitter() (*Emitter, *[][3]string) {
	var buf [][3]string
	return &Emitter{Capture: &buf, Stats: map[string]int{}}, &buf
}
func (e *Emitter) Close() {
	e.w.Flush()
	e.f.Close()
}

type bigInt = big.Int

func bigOne() *big.Int { return big.NewInt(1) }
